"""
sa.model -- source model of ywangd/pybufrkit built from its syntax trees.

Nothing in here imports or executes a module of the repository under analysis:
every fact is read off `ast` trees of pybufrkit/*.py and the JSON section
layouts under pybufrkit/definitions/.
"""
from __future__ import print_function

import ast
import glob
import hashlib
import json
import os
import string


class AnalysisError(Exception):
    """An anchor the rule needs has vanished / an unmodelled construct (exit 2)."""


PKG = 'pybufrkit'

# stdlib constants the repository's code consults
STDLIB_CONSTS = {
    ('string', 'whitespace'): string.whitespace,
    ('string', 'digits'): string.digits,
    ('string', 'ascii_uppercase'): string.ascii_uppercase,
    ('string', 'ascii_lowercase'): string.ascii_lowercase,
    ('string', 'ascii_letters'): string.ascii_letters,
    ('string', 'printable'): string.printable,
}
import re as _re
for _n in ('DOTALL', 'S', 'IGNORECASE', 'I', 'MULTILINE', 'M', 'VERBOSE', 'X', 'ASCII', 'A', 'UNICODE', 'U'):
    STDLIB_CONSTS[('re', _n)] = int(getattr(_re, _n))


def unparse(node):
    return ast.unparse(node)


def norm(node):
    """Normalised statement/expression text used as a construct key."""
    return ' '.join(ast.unparse(node).split())


class FuncInfo(object):
    def __init__(self, module, cls, node):
        self.module = module          # ModuleInfo
        self.cls = cls                # ClassInfo or None
        self.node = node
        self.name = node.name
        a = node.args
        self.params = [x.arg for x in a.posonlyargs + a.args]
        self.defaults = a.defaults
        self.vararg = a.vararg.arg if a.vararg else None
        self.kwarg = a.kwarg.arg if a.kwarg else None
        self.kwonly = [x.arg for x in a.kwonlyargs]
        self.decorators = [norm(d) for d in node.decorator_list]

    @property
    def qualname(self):
        return (self.cls.name + '.' if self.cls else '') + self.name

    @property
    def where(self):
        return '%s:%d' % (self.module.relpath, self.node.lineno)

    @property
    def is_abstract(self):
        return any('abstractmethod' in d for d in self.decorators)

    @property
    def is_static(self):
        return any(d == 'staticmethod' for d in self.decorators)

    @property
    def is_classmethod(self):
        return any(d == 'classmethod' for d in self.decorators)

    @property
    def is_property(self):
        return any(d == 'property' for d in self.decorators)

    def __repr__(self):
        return '<Func %s.%s>' % (self.module.name, self.qualname)


class ClassInfo(object):
    def __init__(self, module, node):
        self.module = module
        self.node = node
        self.name = node.name
        self.base_names = []
        for b in node.bases:
            if isinstance(b, ast.Name):
                self.base_names.append(b.id)
            elif isinstance(b, ast.Attribute):
                self.base_names.append(b.attr)
        self.methods = {}
        self.class_consts = {}
        for m in node.body:
            if isinstance(m, ast.FunctionDef):
                # a property setter shares the getter's name: keep the getter
                fi = FuncInfo(module, self, m)
                if any('.setter' in d for d in fi.decorators):
                    self.methods.setdefault(m.name + '.setter', fi)
                else:
                    self.methods[m.name] = fi
            elif isinstance(m, ast.Assign) and len(m.targets) == 1 and isinstance(m.targets[0], ast.Name):
                self.class_consts[m.targets[0].id] = m.value

    def __repr__(self):
        return '<Class %s.%s>' % (self.module.name, self.name)


class ModuleInfo(object):
    def __init__(self, name, path, relpath):
        self.name = name
        self.path = path
        self.relpath = relpath
        with open(path, 'rb') as f:
            raw = f.read()
        self.digest = hashlib.sha256(raw).hexdigest()[:16]
        self.src = raw.decode('utf-8')
        try:
            self.tree = ast.parse(self.src, filename=path)
        except SyntaxError as e:
            raise AnalysisError('cannot parse %s: %s' % (relpath, e))
        self.funcs = {}
        self.classes = {}
        self.const_nodes = {}
        self.imports = {}      # local name -> (module, name) for `from pybufrkit.x import y`
        self.mod_imports = {}  # local name -> stdlib module name for `import x`
        for n in self.tree.body:
            if isinstance(n, ast.FunctionDef):
                self.funcs[n.name] = FuncInfo(self, None, n)
            elif isinstance(n, ast.ClassDef):
                self.classes[n.name] = ClassInfo(self, n)
            elif isinstance(n, ast.Assign):
                for t in n.targets:
                    if isinstance(t, ast.Name):
                        self.const_nodes[t.id] = n.value
            elif isinstance(n, ast.ImportFrom) and n.module:
                for a in n.names:
                    self.imports[a.asname or a.name] = (n.module, a.name)
            elif isinstance(n, ast.Import):
                for a in n.names:
                    self.mod_imports[a.asname or a.name] = a.name
        # module-level statements that change a module-level binding in place after it has been made (`TABLE.update({...})`,
        # `TABLE[k] = v`, `NAMES += [...]`): part of the value every reader sees
        self.mutations = {}
        for n in self.tree.body:
            tgt = None
            if isinstance(n, ast.Expr) and isinstance(n.value, ast.Call) and isinstance(n.value.func, ast.Attribute) and isinstance(n.value.func.value, ast.Name):
                tgt = n.value.func.value.id
            elif isinstance(n, ast.Assign) and len(n.targets) == 1 and isinstance(n.targets[0], ast.Subscript) and isinstance(n.targets[0].value, ast.Name):
                tgt = n.targets[0].value.id
            elif isinstance(n, ast.AugAssign) and isinstance(n.target, ast.Subscript) and isinstance(n.target.value, ast.Name):
                tgt = n.target.value.id
            if tgt is not None and tgt in self.const_nodes:
                self.mutations.setdefault(tgt, []).append(n)
        # imports inside function bodies (e.g. `from copy import deepcopy`)
        for n in ast.walk(self.tree):
            if isinstance(n, ast.ImportFrom) and n.module and n not in self.tree.body:
                for a in n.names:
                    self.imports.setdefault(a.asname or a.name, (n.module, a.name))


class Repo(object):
    """All parsed modules of the package plus the JSON section layouts."""

    def __init__(self, root=None):
        self.root = os.path.abspath(root or os.environ.get('VERIF_REPO', '/repo'))
        pkgdir = os.path.join(self.root, PKG)
        if not os.path.isdir(pkgdir):
            raise AnalysisError('package directory not found: %s' % pkgdir)
        self.modules = {}
        for p in sorted(glob.glob(os.path.join(pkgdir, '*.py'))):
            name = os.path.splitext(os.path.basename(p))[0]
            self.modules[name] = ModuleInfo(name, p, os.path.relpath(p, self.root))
        self.class_index = {}
        for m in self.modules.values():
            for c in m.classes.values():
                self.class_index.setdefault(c.name, []).append(c)
        self._const_cache = {}
        self._layouts = None

    # ---------------------------------------------------------------- lookup
    def module(self, name):
        if name not in self.modules:
            raise AnalysisError('module %s.%s not found' % (PKG, name))
        return self.modules[name]

    def cls(self, name, module=None):
        cands = self.class_index.get(name, [])
        if module:
            cands = [c for c in cands if c.module.name == module]
        if not cands:
            raise AnalysisError('class %s not found' % name)
        return cands[0]

    def has_cls(self, name):
        return name in self.class_index

    def func(self, module, name):
        m = self.module(module)
        if name not in m.funcs:
            raise AnalysisError('function %s.%s not found' % (module, name))
        return m.funcs[name]

    def mro(self, clsname):
        """Single-inheritance MRO restricted to classes defined in the package."""
        out = []
        seen = set()
        cur = self.cls(clsname) if isinstance(clsname, str) else clsname
        while cur is not None and cur.name not in seen:
            out.append(cur)
            seen.add(cur.name)
            nxt = None
            for b in cur.base_names:
                if b in self.class_index:
                    # resolve through the module's imports when ambiguous
                    nxt = self._resolve_class_from(cur.module, b)
                    break
            cur = nxt
        return out

    def _resolve_class_from(self, module, name):
        if name in module.classes:
            return module.classes[name]
        if name in module.imports:
            mod, nm = module.imports[name]
            if mod.startswith(PKG + '.'):
                mn = mod.split('.', 1)[1]
                if mn in self.modules and nm in self.modules[mn].classes:
                    return self.modules[mn].classes[nm]
        cands = self.class_index.get(name, [])
        return cands[0] if cands else None

    def is_subclass(self, name, base):
        if name == base:
            return True
        if name not in self.class_index:
            return False
        return any(c.name == base for c in self.mro(name))

    def subclasses(self, base):
        return sorted(n for n in self.class_index if self.is_subclass(n, base))

    def method(self, clsname, meth, required=True):
        """Resolve `meth` along the MRO of clsname."""
        for c in self.mro(clsname):
            if meth in c.methods:
                return c.methods[meth]
        if required:
            raise AnalysisError('method %s.%s not found' % (clsname, meth))
        return None

    def own_method(self, clsname, meth, required=True):
        c = self.cls(clsname)
        if meth in c.methods:
            return c.methods[meth]
        if required:
            raise AnalysisError('method %s.%s not defined in the class itself' % (clsname, meth))
        return None

    def all_funcs(self):
        for m in self.modules.values():
            for f in m.funcs.values():
                yield f
            for c in m.classes.values():
                for f in c.methods.values():
                    yield f

    # ------------------------------------------------------------- constants
    def const(self, module, name, _depth=0):
        """Value of a module-level constant, following package imports."""
        key = (module, name)
        if key in self._const_cache:
            return self._const_cache[key]
        if _depth > 6:
            raise AnalysisError('constant import chain too deep: %s.%s' % key)
        m = self.module(module)
        val = _NOCONST
        if name in m.const_nodes and name in getattr(m, 'mutations', {}):
            val = _NOCONST          # changed in place by later module-level statements: the evaluator builds it (module_value)
        elif name in m.const_nodes:
            val = self._fold(m, m.const_nodes[name])
        elif name in m.imports:
            mod, nm = m.imports[name]
            if mod.startswith(PKG + '.'):
                val = self.const(mod.split('.', 1)[1], nm, _depth + 1)
            elif mod == PKG:
                val = _NOCONST
        self._const_cache[key] = val
        return val

    def has_const(self, module, name):
        return self.const(module, name) is not _NOCONST

    def _fold(self, m, node):
        try:
            return ast.literal_eval(node)
        except Exception:
            pass
        # comprehension over range with constant bounds, simple arithmetic on constants
        try:
            return _SafeFold(self, m).visit(node)
        except _NoFold:
            return _NOCONST

    # --------------------------------------------------------------- layouts
    @property
    def layouts(self):
        """{(index, edition or None): json} plus resolution like SectionConfigurer."""
        if self._layouts is None:
            d = {}
            ddir = os.path.join(self.root, PKG, 'definitions')
            files = sorted(glob.glob(os.path.join(ddir, 'section*.json')))
            if not files:
                raise AnalysisError('no section layouts under %s' % ddir)
            for f in files:
                base = os.path.splitext(os.path.basename(f))[0][7:]
                if '-' in base:
                    i, e = base.split('-')
                    key = (int(i), int(e))
                else:
                    key = (int(base), None)
                with open(f) as ins:
                    try:
                        d[key] = json.load(ins)
                    except ValueError as e:
                        raise AnalysisError('bad JSON in %s: %s' % (f, e))
                d[key]['__file__'] = os.path.relpath(f, self.root)
            self._layouts = d
        return self._layouts

    def layout(self, index, edition):
        """Mirror of SectionConfigurer.get_configuration: edition-specific file,
        else the file without edition, else the one marked default."""
        L = self.layouts
        if (index, edition) in L:
            return L[(index, edition)]
        if (index, None) in L:
            return L[(index, None)]
        for (i, e), v in sorted(L.items(), key=lambda kv: (kv[0][0], kv[0][1] or 0)):
            if i == index and v.get('default'):
                return v
        raise AnalysisError('no layout for section %d edition %r' % (index, edition))

    def section_indices(self):
        return sorted(set(i for i, _ in self.layouts))

    def digests(self):
        return dict((m.relpath, m.digest) for m in self.modules.values())


class _NoConst(object):
    def __repr__(self):
        return '<no-const>'


_NOCONST = _NoConst()
NOCONST = _NOCONST


class _NoFold(Exception):
    pass


class _SafeFold(ast.NodeVisitor):
    """Constant folding of the handful of forms module constants use."""

    def __init__(self, repo, module, env=None):
        self.repo, self.m, self.env = repo, module, env or {}

    def generic_visit(self, node):
        raise _NoFold()

    def visit_Constant(self, n):
        return n.value

    def visit_Name(self, n):
        if n.id in self.env:
            return self.env[n.id]
        v = self.repo.const(self.m.name, n.id)
        if v is _NOCONST:
            raise _NoFold()
        return v

    def visit_Tuple(self, n):
        return tuple(self.visit(e) for e in n.elts)

    def visit_List(self, n):
        return [self.visit(e) for e in n.elts]

    def visit_Dict(self, n):
        return dict((self.visit(k), self.visit(v)) for k, v in zip(n.keys, n.values))

    def visit_UnaryOp(self, n):
        v = self.visit(n.operand)
        if isinstance(n.op, ast.USub):
            return -v
        if isinstance(n.op, ast.Not):
            return not v
        raise _NoFold()

    def visit_BinOp(self, n):
        l, r = self.visit(n.left), self.visit(n.right)
        ops = {ast.Add: lambda a, b: a + b, ast.Sub: lambda a, b: a - b, ast.Mult: lambda a, b: a * b,
               ast.Pow: lambda a, b: a ** b, ast.FloorDiv: lambda a, b: a // b, ast.Mod: lambda a, b: a % b}
        f = ops.get(type(n.op))
        if f is None:
            raise _NoFold()
        if isinstance(n.op, ast.Pow) and (not isinstance(r, int) or abs(r) > 4096):
            raise _NoFold()
        return f(l, r)

    def visit_ListComp(self, n):
        if len(n.generators) != 1 or n.generators[0].ifs or not isinstance(n.generators[0].target, ast.Name):
            raise _NoFold()
        g = n.generators[0]
        it = g.iter
        if not (isinstance(it, ast.Call) and isinstance(it.func, ast.Name) and it.func.id == 'range'):
            raise _NoFold()
        args = [self.visit(a) for a in it.args]
        if any(not isinstance(a, int) for a in args) or len(range(*args)) > 100000:
            raise _NoFold()
        out = []
        for i in range(*args):
            out.append(_SafeFold(self.repo, self.m, dict(self.env, **{g.target.id: i})).visit(n.elt))
        return out


# ---------------------------------------------------------------------------
# Effect sets
# ---------------------------------------------------------------------------
MUTATORS = ('append', 'pop', 'insert', 'update', 'clear', 'extend', 'popitem', 'remove', 'sort', 'reverse',
            'setdefault', 'add', 'discard')


class Effects(object):
    """Attribute reads / writes of one function body, per receiver variable."""

    def __init__(self, fi):
        self.fi = fi
        self.writes = {}    # recv -> {attr: [node]}
        self.mutates = {}   # recv -> {attr: [node]}
        self.reads = {}     # recv -> {attr: [node]}
        self.calls = []     # ast.Call nodes
        self.raises = []    # ast.Raise
        self.asserts = []   # ast.Assert
        self.setattrs = []  # setattr(recv, key, value) calls
        self._scan(fi.node)

    def _add(self, d, recv, attr, node):
        d.setdefault(recv, {}).setdefault(attr, []).append(node)

    def _targets(self, t):
        if isinstance(t, (ast.Tuple, ast.List)):
            for e in t.elts:
                for x in self._targets(e):
                    yield x
        elif isinstance(t, ast.Starred):
            for x in self._targets(t.value):
                yield x
        else:
            yield t

    def _scan(self, fn):
        for n in ast.walk(fn):
            tg = []
            if isinstance(n, ast.Assign):
                tg = n.targets
            elif isinstance(n, (ast.AugAssign, ast.AnnAssign)):
                tg = [n.target]
            elif isinstance(n, ast.Delete):
                tg = n.targets
            elif isinstance(n, (ast.For, ast.comprehension)):
                tg = [n.target]
            for t0 in tg:
                for t in self._targets(t0):
                    if isinstance(t, ast.Attribute) and isinstance(t.value, ast.Name):
                        self._add(self.writes, t.value.id, t.attr, n)
                    elif isinstance(t, ast.Subscript):
                        b = t.value
                        if isinstance(b, ast.Attribute) and isinstance(b.value, ast.Name):
                            self._add(self.mutates, b.value.id, b.attr, n)
            if isinstance(n, ast.Attribute) and isinstance(n.ctx, ast.Load) and isinstance(n.value, ast.Name):
                self._add(self.reads, n.value.id, n.attr, n)
            if isinstance(n, ast.Call):
                self.calls.append(n)
                f = n.func
                if isinstance(f, ast.Attribute) and f.attr in MUTATORS:
                    b = f.value
                    if isinstance(b, ast.Attribute) and isinstance(b.value, ast.Name):
                        self._add(self.mutates, b.value.id, b.attr, n)
                if isinstance(f, ast.Name) and f.id == 'setattr' and len(n.args) == 3:
                    self.setattrs.append(n)
            if isinstance(n, ast.Raise):
                self.raises.append(n)
            if isinstance(n, ast.Assert):
                self.asserts.append(n)

    def written(self, recv):
        s = set(self.writes.get(recv, {}))
        s |= set(self.mutates.get(recv, {}))
        return s

    def read(self, recv):
        return set(self.reads.get(recv, {}))


_EFFECT_CACHE = {}


def effects(fi):
    k = id(fi.node)
    if k not in _EFFECT_CACHE:
        _EFFECT_CACHE[k] = Effects(fi)
    return _EFFECT_CACHE[k]


# ---------------------------------------------------------------------------
# Call resolution and call graph
# ---------------------------------------------------------------------------
# receiver-name table, confirmed by reading the repository (DESIGN 2.2)
RECEIVER_CLASSES = {
    'state': 'CoderState',
    'b': 'TableB', 'c': 'TableC', 'r': 'TableR', 'd': 'TableD',
    'bit_reader': 'BitStringBitReader',
    'bit_writer': 'BitStringBitWriter',
    'bufr_message': 'BufrMessage',
    'section': 'BufrSection',
    'table_group': 'BufrTableGroup',
    'template_data': 'TemplateData',
    'decoder': 'Decoder',
    'encoder': 'Encoder',
}


class CallGraph(object):
    """Whole-package call graph resolved for one entry class (so that
    `self.m()` in Coder resolves to the Decoder/Encoder/TemplateCompiler override)."""

    def __init__(self, repo, self_class, receivers=None):
        self.repo = repo
        self.self_class = self_class
        self.receivers = dict(RECEIVER_CLASSES)
        if receivers:
            self.receivers.update(receivers)
        self.edges = {}       # FuncInfo -> set(FuncInfo)
        self.unresolved = {}  # FuncInfo -> [text]

    # -- resolution of one callee expression to FuncInfos
    def resolve_callee(self, fi, func_expr, self_class=None):
        repo = self.repo
        self_class = self_class or (self.self_class if fi.cls and repo.is_subclass(self.self_class, fi.cls.name)
                                    else (fi.cls.name if fi.cls else None))
        out = []
        if isinstance(func_expr, ast.IfExp):
            return self.resolve_callee(fi, func_expr.body, self_class) + self.resolve_callee(fi, func_expr.orelse, self_class)
        if isinstance(func_expr, ast.Name):
            nm = func_expr.id
            m = fi.module
            if nm in m.funcs:
                out.append(m.funcs[nm])
            elif nm in m.classes:
                init = repo.method(nm, '__init__', required=False)
                if init:
                    out.append(init)
            elif nm in m.imports:
                mod, orig = m.imports[nm]
                if mod.startswith(PKG + '.'):
                    mn = mod.split('.', 1)[1]
                    if mn in repo.modules:
                        mm = repo.modules[mn]
                        if orig in mm.funcs:
                            out.append(mm.funcs[orig])
                        elif orig in mm.classes:
                            init = repo.method(orig, '__init__', required=False)
                            if init:
                                out.append(init)
            return out
        if isinstance(func_expr, ast.Attribute):
            recv = func_expr.value
            meth = func_expr.attr
            # super(X, self).m
            if isinstance(recv, ast.Call) and isinstance(recv.func, ast.Name) and recv.func.id == 'super' and fi.cls:
                mro = repo.mro(fi.cls.name)[1:]
                for c in mro:
                    if meth in c.methods:
                        return [c.methods[meth]]
                return []
            if isinstance(recv, ast.Name):
                rn = recv.id
                if rn in ('self', 'cls') and self_class:
                    f = repo.method(self_class, meth, required=False)
                    return [f] if f else []
                if rn in self.receivers and repo.has_cls(self.receivers[rn]):
                    f = repo.method(self.receivers[rn], meth, required=False)
                    return [f] if f else []
                if rn in fi.module.classes or rn in fi.module.imports and repo.has_cls(rn):
                    f = repo.method(rn, meth, required=False)
                    return [f] if f else []
            # self.attr.m(...) with known component classes
            if isinstance(recv, ast.Attribute) and isinstance(recv.value, ast.Name) and recv.value.id == 'self':
                comp = {'section_configurer': 'SectionConfigurer', 'compiled_template_manager': 'CompiledTemplateManager',
                        'template_compiler': 'TemplateCompiler', 'metadata_querent': 'MetadataQuerent',
                        'data_querent': 'DataQuerent', 'path_parser': 'NodePathParser',
                        'metadata_expr_parser': 'MetadataExprParser', 'querent': 'BufrMessageQuerent',
                        'node_path': 'NodePath'}.get(recv.attr)
                if comp and repo.has_cls(comp):
                    f = repo.method(comp, meth, required=False)
                    return [f] if f else []
        return out

    # attribute chains whose class is known (confirmed by reading)
    CHAIN_CLASSES = {
        'self.section_configurer': 'SectionConfigurer', 'self.compiled_template_manager': 'CompiledTemplateManager',
        'self.template_compiler': 'TemplateCompiler', 'self.metadata_querent': 'MetadataQuerent',
        'self.data_querent': 'DataQuerent', 'self.path_parser': 'NodePathParser',
        'self.metadata_expr_parser': 'MetadataExprParser', 'self.querent': 'BufrMessageQuerent',
        'self.node_path': 'NodePath', 'cls._TABLE_GROUP_CACHE': 'TableGroupCache',
        'self.template_data.value': 'TemplateData', 'bufr_message.template_data.value': 'TemplateData',
        'TableGroupCacheManager._TABLE_GROUP_CACHE': 'TableGroupCache',
    }
    # method names never over-approximated by name (container / string methods)
    BUILTIN_METHOD_NAMES = set(MUTATORS) | {'get', 'items', 'keys', 'values', 'format', 'join', 'split', 'strip',
                                             'find', 'encode', 'decode', 'read', 'write', 'count', 'index', 'copy',
                                             'startswith', 'endswith', 'lstrip', 'rstrip', 'rsplit', 'splitlines',
                                             'debug', 'info', 'warning', 'error', 'rfind', 'lower', 'upper'}

    def _method_name_index(self):
        if not hasattr(self, '_mni'):
            idx = {}
            for f in self.repo.all_funcs():
                if f.cls is not None:
                    idx.setdefault(f.name, []).append(f)
            self._mni = idx
        return self._mni

    def callees(self, fi):
        if fi in self.edges:
            return self.edges[fi]
        out = set()
        unres = []
        by_name = []
        eff = effects(fi)
        call_funcs = set(id(c.func) for c in eff.calls)
        for c in eff.calls:
            r = self.resolve_callee(fi, c.func)
            if r:
                out.update(r)
                continue
            f = c.func
            if isinstance(f, ast.Attribute):
                chain = norm(f.value)
                cls = self.CHAIN_CLASSES.get(chain)
                if cls and self.repo.has_cls(cls):
                    g = self.repo.method(cls, f.attr, required=False)
                    if g:
                        out.add(g)
                        continue
                # over-approximate by method name (DESIGN 2.2)
                if f.attr not in self.BUILTIN_METHOD_NAMES and f.attr in self._method_name_index():
                    out.update(self._method_name_index()[f.attr])
                    by_name.append(norm(f))
                    continue
            unres.append(norm(c.func))
        # method / function values that are not called on the spot: f = self.process_template,
        # functools.partial(process_compiled_template, self), (self.section_configurer.info_configuration,)
        for n in ast.walk(fi.node):
            if id(n) in call_funcs:
                continue
            if isinstance(n, ast.Attribute) and isinstance(n.ctx, ast.Load):
                base_ok = isinstance(n.value, ast.Name) and n.value.id in ('self', 'cls')
                chain = norm(n.value)
                if base_ok:
                    rr = self.resolve_callee(fi, n)
                    out.update(x for x in rr if not x.is_property)
                elif chain in self.CHAIN_CLASSES and self.repo.has_cls(self.CHAIN_CLASSES[chain]):
                    g = self.repo.method(self.CHAIN_CLASSES[chain], n.attr, required=False)
                    if g:
                        out.add(g)
            elif isinstance(n, ast.Name) and isinstance(n.ctx, ast.Load):
                if n.id in fi.module.funcs or (n.id in fi.module.imports and n.id not in fi.module.classes):
                    rr = self.resolve_callee(fi, n)
                    out.update(x for x in rr if x.cls is None)
        # properties read through self (e.g. self.compiled_template)
        for n in ast.walk(fi.node):
            if isinstance(n, ast.Attribute) and isinstance(n.ctx, ast.Load) and isinstance(n.value, ast.Name):
                rn = n.value.id
                cls = None
                if rn == 'self' and fi.cls is not None:
                    cls = self.self_class if self.repo.is_subclass(self.self_class, fi.cls.name) else fi.cls.name
                elif rn in self.receivers:
                    cls = self.receivers[rn]
                if cls and self.repo.has_cls(cls):
                    g = self.repo.method(cls, n.attr, required=False)
                    if g is not None and g.is_property:
                        out.add(g)
        # string-keyed dispatch
        out.update(self._string_dispatch(fi))
        self.edges[fi] = out
        self.unresolved[fi] = unres
        self.by_name = getattr(self, 'by_name', {})
        self.by_name[fi] = by_name
        return out

    def _string_dispatch(self, fi):
        """getattr(self, 'read_' + data_type) etc. resolved against the finite
        set of strings that flow there (DESIGN 2.2)."""
        repo = self.repo
        out = set()
        for c in effects(fi).calls:
            if isinstance(c.func, ast.Name) and c.func.id == 'getattr' and len(c.args) >= 2:
                tgt, key = c.args[0], c.args[1]
                # 'prefix' + var  with the JSON layout types
                if isinstance(key, ast.BinOp) and isinstance(key.op, ast.Add) and isinstance(key.left, ast.Constant) \
                        and isinstance(key.left.value, str):
                    prefix = key.left.value
                    types = set()
                    for lay in repo.layouts.values():
                        for p in lay.get('parameters', []):
                            types.add(p.get('type'))
                    cls = None
                    if isinstance(tgt, ast.Name) and tgt.id == 'self' and fi.cls:
                        # dispatch in the abstract reader/writer resolves to the bitstring implementation
                        cls = {'BitReader': 'BitStringBitReader', 'BitWriter': 'BitStringBitWriter'}.get(fi.cls.name, fi.cls.name)
                    if cls and repo.has_cls(cls):
                        for t in types:
                            f = repo.method(cls, prefix + str(t), required=False)
                            if f:
                                out.add(f)
                # getattr(self, <name taken from a table / a conditional expression of constants>): every string constant of the
                # function and of the class-level tables of its class that names a method of the class (an over-approximation)
                elif isinstance(tgt, ast.Name) and tgt.id == 'self' and fi.cls is not None and not (isinstance(key, ast.Attribute) and key.attr == 'method_name'):
                    cname = self.self_class if (self.self_class and repo.has_cls(self.self_class) and repo.is_subclass(self.self_class, fi.cls.name)) else fi.cls.name
                    strs = set(nd.value for nd in ast.walk(fi.node) if isinstance(nd, ast.Constant) and isinstance(nd.value, str))
                    for c_ in repo.mro(cname):
                        for cn in getattr(c_, 'class_consts', {}).values():
                            strs.update(nd.value for nd in ast.walk(cn) if isinstance(nd, ast.Constant) and isinstance(nd.value, str))
                    for nm in sorted(strs):
                        f = repo.method(cname, nm, required=False) if nm.isidentifier() else None
                        if f:
                            out.add(f)
                # getattr(coder/state, statement.method_name): every name recorded by get_func_name()
                elif isinstance(key, ast.Attribute) and key.attr == 'method_name':
                    for rec_cls, names in recorded_method_names(repo).items():
                        for nm in names:
                            if isinstance(tgt, ast.Name) and tgt.id == 'coder' and rec_cls == 'CoderMethodCall':
                                for cc in ([self.self_class] if repo.is_subclass(self.self_class, 'Coder') else ['Decoder', 'Encoder']):
                                    f = repo.method(cc, nm, required=False)
                                    if f:
                                        out.add(f)
                            if isinstance(tgt, ast.Name) and tgt.id == 'state' and rec_cls == 'StateMethodCall':
                                f = repo.method('CoderState', nm, required=False)
                                if f:
                                    out.add(f)
        return out

    def reachable(self, entries):
        seen = []
        seen_set = set()
        stack = list(entries)
        while stack:
            f = stack.pop()
            if f in seen_set:
                continue
            seen_set.add(f)
            seen.append(f)
            for g in sorted(self.callees(f), key=lambda x: (x.module.name, x.qualname)):
                if g not in seen_set:
                    stack.append(g)
        return seen


def recorded_method_names(repo):
    """{ 'CoderMethodCall': set(names), 'StateMethodCall': set(names) } recorded by the
    template compiler through get_func_name() (the enclosing method's own name)
    or by a literal method name."""
    out = {'CoderMethodCall': set(), 'StateMethodCall': set()}
    m = repo.module('templatecompiler')
    for c in m.classes.values():
        for fi in c.methods.values():
            for call in effects(fi).calls:
                if isinstance(call.func, ast.Name) and call.func.id in out and call.args:
                    a = call.args[0]
                    if isinstance(a, ast.Call) and isinstance(a.func, ast.Name) and a.func.id == 'get_func_name':
                        out[call.func.id].add(fi.name)
                    elif isinstance(a, ast.Constant) and isinstance(a.value, str):
                        out[call.func.id].add(a.value)
    # names that reach the recording constructors through a helper (a `_record(state, 'process_numeric', ...)` method, a factory of
    # recording methods called in the class body): every string constant of the module that names a method of the run-time state /
    # of both coders and appears as a call argument
    state_methods = set(repo.cls('CoderState').methods) if repo.has_cls('CoderState') else set()
    coder_methods = set()
    for cn in ('Decoder', 'Encoder'):
        if repo.has_cls(cn):
            names = set()
            for c in repo.mro(cn):
                names |= set(c.methods)
            coder_methods = names if not coder_methods else (coder_methods & names)
    for node in ast.walk(m.tree):
        if isinstance(node, ast.Call):
            if isinstance(node.func, ast.Name) and node.func.id in out:
                continue
            for a in list(node.args) + [k.value for k in node.keywords]:
                if isinstance(a, ast.Constant) and isinstance(a.value, str):
                    f = node.func
                    fname = f.id if isinstance(f, ast.Name) else (f.attr if isinstance(f, ast.Attribute) else '')
                    if fname in ('getattr', 'hasattr', 'format', 'get', 'debug', 'info', 'warning'):
                        continue
                    if a.value in state_methods and not a.value.startswith('__'):
                        out['StateMethodCall'].add(a.value)
                    elif a.value in coder_methods and a.value.startswith(('process_', 'define_', 'get_value_')):
                        out['CoderMethodCall'].add(a.value)
    return out


def exception_class_of_raise(repo, fi, raise_node):
    """Resolved exception class name of a `raise` statement, following one-line
    factory functions such as unexpected_char_error()."""
    exc = raise_node.exc
    if exc is None:
        return '<re-raise>'
    if isinstance(exc, ast.Name):
        # `raise e` inside `except X as e`
        for n in ast.walk(fi.node):
            if isinstance(n, ast.ExceptHandler) and n.name == exc.id and n.type is not None:
                if any(s is raise_node for b in n.body for s in ast.walk(b)):
                    return '<re-raise %s>' % norm(n.type)
        return exc.id
    if isinstance(exc, ast.Call):
        f = exc.func
        nm = f.id if isinstance(f, ast.Name) else (f.attr if isinstance(f, ast.Attribute) else None)
        if nm is None:
            return '<unknown>'
        if repo.has_cls(nm):
            return nm
        # factory (a function of the same module, or a method of the same class hierarchy) returning an exception instance
        g = None
        if isinstance(f, ast.Name) and nm in fi.module.funcs:
            g = fi.module.funcs[nm]
        elif isinstance(f, ast.Attribute) and isinstance(f.value, ast.Name) and f.value.id in ('self', 'cls') and fi.cls is not None:
            g = repo.method(fi.cls.name, nm, required=False)
        elif isinstance(f, ast.Attribute) and isinstance(f.value, ast.Name) and repo.has_cls(f.value.id):
            g = repo.method(f.value.id, nm, required=False)
        if g is not None:
            rets = [n for n in ast.walk(g.node) if isinstance(n, ast.Return)]
            names = set()
            for r in rets:
                if isinstance(r.value, ast.Call) and isinstance(r.value.func, ast.Name):
                    names.add(r.value.func.id)
                else:
                    names.add('<unknown>')
            if len(names) == 1:
                return names.pop()
            return '<unknown>'
        return nm
    return '<unknown>'
