"""
sa.dataflow -- flow-sensitive reaching definitions for local names over the structured statements of one function.

`reaching(fn_node)` returns {id(simple statement): env} where env maps a local name to the frozenset of definitions that may
reach the statement:  ('assign', value node) | ('param', name) | ('loop', iter node) | ('other', node).
Branches are joined by union, loop bodies are processed twice (a definition made at the end of the body reaches its beginning),
`try` bodies may be abandoned at any point (handlers see the definitions of every prefix), `break`/`continue`/`return`/`raise` end a
branch.  Nested functions and classes are opaque (their own names are not ours).
"""
import ast


def _join(a, b):
    if a is None:
        return b
    if b is None:
        return a
    out = dict(a)
    for k, v in b.items():
        out[k] = out.get(k, frozenset()) | v
    return out


class _RD(object):
    def __init__(self):
        self.at = {}
        self.breaks = []
        self.continues = []

    def targets(self, t, value, env, kind='assign'):
        if isinstance(t, ast.Name):
            env[t.id] = frozenset([(kind, value)])
        elif isinstance(t, (ast.Tuple, ast.List)):
            for i, e in enumerate(t.elts):
                v = value
                if kind == 'assign' and isinstance(value, (ast.Tuple, ast.List)) and len(value.elts) == len(t.elts) and \
                        not any(isinstance(x, ast.Starred) for x in t.elts + value.elts):
                    v = value.elts[i]
                    self.targets(e, v, env, kind)
                else:
                    self.targets(e, value, env, 'other' if kind == 'assign' else kind)
        elif isinstance(t, ast.Starred):
            self.targets(t.value, value, env, 'other')

    def walrus(self, node, env):
        for n in ast.walk(node):
            if isinstance(n, ast.NamedExpr) and isinstance(n.target, ast.Name):
                env[n.target.id] = frozenset([('assign', n.value)])

    def block(self, stmts, env):
        for s in stmts:
            if env is None:
                return None
            env = self.stmt(s, env)
        return env

    def stmt(self, s, env):
        self.at[id(s)] = dict(env)
        if isinstance(s, ast.Assign):
            self.walrus(s.value, env)
            for t in s.targets:
                self.targets(t, s.value, env)
            return env
        if isinstance(s, ast.AnnAssign):
            if s.value is not None:
                self.targets(s.target, s.value, env)
            return env
        if isinstance(s, ast.AugAssign):
            if isinstance(s.target, ast.Name):
                env[s.target.id] = frozenset([('other', s)])
            return env
        if isinstance(s, (ast.Return, ast.Raise)):
            return None
        if isinstance(s, ast.Break):
            self.breaks.append(dict(env))
            return None
        if isinstance(s, ast.Continue):
            self.continues.append(dict(env))
            return None
        if isinstance(s, ast.If):
            self.walrus(s.test, env)
            a = self.block(s.body, dict(env))
            b = self.block(s.orelse, dict(env))
            return _join(a, b)
        if isinstance(s, (ast.For, ast.AsyncFor, ast.While)):
            saved_b, saved_c = self.breaks, self.continues
            self.breaks, self.continues = [], []
            entry = dict(env)
            out = None
            for _ in range(2):
                cur = dict(entry)
                if isinstance(s, ast.While):
                    self.walrus(s.test, cur)
                else:
                    self.targets(s.target, s.iter, cur, 'loop')
                end = self.block(s.body, cur)
                for c in self.continues:
                    end = _join(end, c)
                self.continues = []
                entry = _join(entry, end)
                out = end
            # the loop exits from its head (zero or more iterations) or through a break
            exit_env = dict(entry)
            always = isinstance(s, ast.While) and isinstance(s.test, ast.Constant) and bool(s.test.value)
            res = None if always else (self.block(s.orelse, exit_env) if s.orelse else exit_env)
            for b in self.breaks:
                res = _join(res, b)
            self.breaks, self.continues = saved_b, saved_c
            return res
        if isinstance(s, (ast.With, ast.AsyncWith)):
            for item in s.items:
                if item.optional_vars is not None:
                    self.targets(item.optional_vars, item.context_expr, env, 'other')
            return self.block(s.body, env)
        if isinstance(s, ast.Try) or type(s).__name__ == 'TryStar':
            before = dict(env)
            # definitions of every prefix of the body may reach a handler
            prefix = dict(before)
            cur = dict(before)
            for x in s.body:
                if cur is None:
                    break
                cur = self.stmt(x, cur)
                if cur is not None:
                    prefix = _join(prefix, cur)
            # (statements that ended the branch inside still contributed through self.at)
            body_end = cur
            if body_end is not None and s.orelse:
                body_end = self.block(s.orelse, body_end)
            res = body_end
            for h in s.handlers:
                henv = dict(prefix)
                if h.name:
                    henv[h.name] = frozenset([('other', h)])
                res = _join(res, self.block(h.body, henv))
            if s.finalbody:
                fin_in = _join(res, prefix)
                fin_out = self.block(s.finalbody, dict(fin_in) if fin_in is not None else dict(prefix))
                if res is None:
                    return None
                return fin_out
            return res
        if isinstance(s, (ast.FunctionDef, ast.AsyncFunctionDef, ast.ClassDef)):
            env[s.name] = frozenset([('other', s)])
            return env
        if isinstance(s, (ast.Import, ast.ImportFrom)):
            for a in s.names:
                env[(a.asname or a.name).split('.')[0]] = frozenset([('other', s)])
            return env
        if isinstance(s, ast.Delete):
            for t in s.targets:
                if isinstance(t, ast.Name):
                    env.pop(t.id, None)
            return env
        if isinstance(s, ast.Expr):
            self.walrus(s.value, env)
            return env
        if type(s).__name__ == 'Match':
            res = None
            for case in s.cases:
                cenv = dict(env)
                for n in ast.walk(case.pattern):
                    nm = getattr(n, 'name', None)
                    if isinstance(nm, str):
                        cenv[nm] = frozenset([('other', n)])
                res = _join(res, self.block(case.body, cenv))
            return _join(res, env)
        return env


def reaching(fn):
    rd = _RD()
    env = {}
    a = fn.args
    for p in list(getattr(a, 'posonlyargs', [])) + list(a.args) + list(a.kwonlyargs) + [x for x in (a.vararg, a.kwarg) if x is not None]:
        env[p.arg] = frozenset([('param', p.arg)])
    rd.block(fn.body, env)
    return rd.at


def enclosing_statement_map(fn):
    """{id(node): simple statement that contains it} for every node of the function body (nested defs excluded)."""
    out = {}

    def visit_stmt(s):
        compound = (ast.If, ast.For, ast.AsyncFor, ast.While, ast.With, ast.AsyncWith, ast.Try)
        if isinstance(s, (ast.FunctionDef, ast.AsyncFunctionDef, ast.ClassDef)):
            out[id(s)] = s
            return
        if isinstance(s, compound) or type(s).__name__ in ('TryStar', 'Match'):
            # header expressions belong to the compound statement itself
            for field, value in ast.iter_fields(s):
                if field in ('body', 'orelse', 'finalbody', 'handlers', 'cases'):
                    continue
                for v in (value if isinstance(value, list) else [value]):
                    if isinstance(v, ast.AST):
                        for n in ast.walk(v):
                            out[id(n)] = s
            for field in ('body', 'orelse', 'finalbody'):
                for x in getattr(s, field, []) or []:
                    visit_stmt(x)
            for h in getattr(s, 'handlers', []) or []:
                for x in h.body:
                    visit_stmt(x)
            for c in getattr(s, 'cases', []) or []:
                for x in c.body:
                    visit_stmt(x)
            out[id(s)] = s
            return
        for n in ast.walk(s):
            out[id(n)] = s
    for s in fn.body:
        visit_stmt(s)
    return out
